// The per-property check engine: generate inputs, run the implementation, judge it with the
// oracle, compare it with the Lean model, classify, search, write replay and evidence.

use crate::gen;
use crate::judge::{self, Fail, Kind};
use crate::model::{self, Model};
use crate::oracle;
use crate::util::*;
use std::collections::{BTreeMap, BTreeSet, HashSet};
use std::hash::{Hash, Hasher};

#[derive(Clone, Copy, PartialEq, Eq, Debug)]
pub enum Tier {
    Quick,
    Thorough,
}

pub struct Ctx {
    pub prop: String,
    pub tier: Tier,
    pub seed: u64,
    pub model: Model,
    pub classes: oracle::Classes,
    pub known: Vec<KnownFinding>,
    pub threads: usize,
    pub verif_dir: String,
    /// None = all Lean obligations of this property were discharged; Some(text) = what broke
    pub lean_broken: Option<String>,
    pub obligations: usize,
    pub discharged: usize,
    pub checker_cmd: String,
    pub repo_dir: String,
}

#[derive(Clone, Debug)]
pub struct KnownFinding {
    pub id: String,
    pub properties: Vec<String>,
    pub guard: String,
    pub what: String,
}

#[derive(Default)]
pub struct Outcome {
    pub evaluations: usize,
    pub nontrivial: HashSet<u64>,
    pub samples: Vec<String>,
    pub oracle_fails: Vec<(Case, Fail)>,
    pub oracle_undecided: usize,
    pub model_compared: usize,
    pub model_diffs: Vec<(Case, String, String)>,
    /// differences explained by the Spec matcher disagreeing with the real regex crate on the
    /// self-check pattern (a defect of the trusted spec layer or of the pinned regex crate, not of grex)
    pub spec_disagreements: Vec<(Case, String)>,
    pub stats: BTreeMap<String, usize>,
    pub notes: Vec<String>,
    pub exhaustive: bool,
    pub rule: String,
}

impl Outcome {
    pub fn bump(&mut self, key: &str, n: usize) {
        *self.stats.entry(key.to_string()).or_insert(0) += n;
    }
    pub fn absorb(&mut self, other: Outcome) {
        self.evaluations += other.evaluations;
        self.nontrivial.extend(other.nontrivial);
        for s in other.samples {
            if self.samples.len() < 12 {
                self.samples.push(s);
            }
        }
        self.oracle_fails.extend(other.oracle_fails);
        self.oracle_undecided += other.oracle_undecided;
        self.model_compared += other.model_compared;
        self.model_diffs.extend(other.model_diffs);
        self.spec_disagreements.extend(other.spec_disagreements);
        for (k, v) in other.stats {
            *self.stats.entry(k).or_insert(0) += v;
        }
        self.notes.extend(other.notes);
    }
}

fn hash_case(c: &Case) -> u64 {
    let mut t = c.tcs.clone();
    t.sort();
    t.dedup();
    let mut h = std::collections::hash_map::DefaultHasher::new();
    t.hash(&mut h);
    c.cfg.hash(&mut h);
    h.finish()
}

pub fn is_nontrivial(out: &str) -> bool {
    let plain = judge::strip_sgr(out);
    let body = judge::body_after_flags(&plain);
    body.chars().any(|c| matches!(c, '|' | '[' | '(' | '?' | '{' | '\\'))
}

pub const NONTRIVIAL_RULE: &str = "a case is a (test-case list, settings) pair; it counts as distinct by the hash of its sorted, de-duplicated test-case set plus settings, and as non-trivial when the implementation's output (colour codes and flag prefix removed) contains at least one of | [ ( ? { \\ — i.e. an alternation, class, group, optional part, counted repetition or escape was produced";

// ------------------------------------------------------------------ case pools
fn flag_rows(rng: &mut Rng, bits: &[u32]) -> Vec<u32> {
    gen::pairwise_flags(rng, bits).into_iter().map(gen::normalise_flags).collect()
}

fn with_thresholds(rng: &mut Rng, bits: u32, max_t: u32) -> Cfg {
    let mut cfg = Cfg::new(bits);
    if cfg.has(BIT_REP) {
        cfg.min_rep = 1 + rng.below(max_t as usize) as u32;
        cfg.min_len = 1 + rng.below(max_t as usize) as u32;
    }
    cfg
}

fn cross(rng: &mut Rng, pool: &[Vec<String>], flags: &[u32], max_t: u32) -> Vec<Case> {
    let mut out = Vec::with_capacity(pool.len() * flags.len());
    for t in pool {
        for f in flags {
            out.push(Case { tcs: t.clone(), cfg: with_thresholds(rng, *f, max_t) });
        }
    }
    out
}

pub struct Pools {
    pub ab: Vec<Vec<String>>,
    pub abc: Vec<Vec<String>>,
    pub adversarial: Vec<(String, Vec<Vec<String>>)>,
    pub random: Vec<Vec<String>>,
    pub exhaustive_ab: bool,
}

pub fn pools(ctx: &Ctx, rng: &mut Rng, atoms_sets: &[(&str, &[&str])]) -> Pools {
    let quick = ctx.tier == Tier::Quick;
    let ab_words = gen::words(&["a", "b"], 3);
    let (ab, ex) = if quick { (gen::subsets(&ab_words, 3), true) } else { (gen::subsets(&ab_words, 4), true) };
    let abc_words = gen::words(&["a", "b", "c"], 2);
    let abc = gen::subsets(&abc_words, if quick { 2 } else { 4 });
    let mut adversarial = vec![];
    for (name, atoms) in atoms_sets {
        let w = gen::words(atoms, 2);
        let n = if quick { 150 } else { 1500 };
        let mut p = gen::sample_subsets(rng, &w, 3, n);
        p.extend((0..n).map(|_| gen::random_list(rng, atoms)));
        // every single atom as the only test case; every pair and (capped) triple of atoms as separate
        // one-atom test cases — these end up in character classes, optional parts and short alternations
        for a in atoms.iter() {
            p.push(vec![a.to_string()]);
        }
        for i in 0..atoms.len() {
            for j in i + 1..atoms.len() {
                p.push(vec![atoms[i].to_string(), atoms[j].to_string()]);
            }
        }
        let triples = if quick { 200 } else { 2000 };
        for _ in 0..triples {
            let mut t: Vec<String> = (0..3).map(|_| rng.pick(atoms).to_string()).collect();
            if rng.chance(1, 3) {
                let extra = format!("{}{}", rng.pick(atoms), rng.pick(atoms));
                t.push(extra);
            }
            p.push(t);
        }
        adversarial.push((name.to_string(), p));
    }
    let n = if quick { 400 } else { 6000 };
    let mut random: Vec<Vec<String>> = (0..n).map(|_| gen::random_list(rng, &["a", "b", "c", "1", " ", "."])).collect();
    // repeat-count families: the same unit repeated k and k+1 (k+2) times inside a common frame gives
    // {n} and, through the trie, {m,n} quantifiers on single characters and on groups
    let per = gen::periodic_words();
    random.extend(gen::sample_subsets(rng, &per, 3, if quick { 150 } else { 1500 }));
    for unit in gen::REPEAT_UNITS {
        for k in 1..=3usize {
            for (pre, suf) in [("", ""), ("x", ""), ("", "c"), ("x", "yz")] {
                random.push(vec![format!("{}{}{}", pre, unit.repeat(k), suf), format!("{}{}{}", pre, unit.repeat(k + 1), suf)]);
                random.push(vec![format!("{}{}{}", pre, unit.repeat(k + 1), suf), format!("{}{}{}", pre, unit.repeat(k + 2), suf), format!("{}q", pre)]);
            }
        }
    }
    Pools { ab, abc, adversarial, random, exhaustive_ab: ex }
}

impl Pools {
    pub fn all(&self) -> Vec<Vec<String>> {
        let mut v = self.ab.clone();
        v.extend(self.abc.iter().cloned());
        for (_, p) in &self.adversarial {
            v.extend(p.iter().cloned());
        }
        v.extend(self.random.iter().cloned());
        v
    }
}

// ------------------------------------------------------------------ generic runner
pub type JudgeFn<'a> = dyn Fn(&Case, &Built) -> Vec<Fail> + Sync + 'a;

pub fn run_cases(ctx: &Ctx, cases: &[Case], judge: &JudgeFn, with_stages: bool) -> Outcome {
    let mut o = Outcome::default();
    o.evaluations = cases.len();
    let built: Vec<Built> = par_map(cases, ctx.threads, build_impl);
    let fails: Vec<Vec<Fail>> = par_map(&(0..cases.len()).collect::<Vec<_>>(), ctx.threads, |i| judge(&cases[*i], &built[*i]));
    for (i, c) in cases.iter().enumerate() {
        match &built[i] {
            Built::Ok(s) => {
                if is_nontrivial(s) {
                    o.nontrivial.insert(hash_case(c));
                }
                if o.samples.len() < 6 && is_nontrivial(s) && i % 97 == 0 {
                    o.samples.push(format!("{} -> {:?}", c.describe(), s));
                }
            }
            Built::Panic(m) => {
                o.bump(&format!("panic:{}", model::panic_site(m)), 1);
            }
        }
        o.bump(&format!("test_cases={}", c.tcs.len().min(6)), 1);
        for f in &fails[i] {
            if f.kind == Kind::Oracle {
                o.oracle_undecided += 1;
            } else {
                o.oracle_fails.push((c.clone(), f.clone()));
            }
        }
    }
    if o.samples.is_empty() {
        if let Some((c, Built::Ok(s))) = cases.iter().zip(built.iter()).find(|(_, b)| b.ok().is_some()) {
            o.samples.push(format!("{} -> {:?}", c.describe(), s));
        }
    }
    // correspondence with the Lean model
    if ctx.model.available() {
        let kind = if with_stages { 'S' } else { 'B' };
        let reqs: Vec<String> = cases.iter().map(|c| model::request(kind, c)).collect();
        let imp: Vec<String> = if with_stages {
            par_map(cases, ctx.threads, model::stage_response)
        } else {
            built.iter().map(model::impl_response).collect()
        };
        match ctx.model.run_robust(&reqs) {
            Ok(got) => {
                for ((c, a), b) in cases.iter().zip(imp.iter()).zip(got.iter()) {
                    o.model_compared += 1;
                    if a != b {
                        o.model_diffs.push((c.clone(), a.clone(), b.clone()));
                    }
                }
            }
            Err(e) => o.notes.push(format!("model driver failed: {}", e)),
        }
        explain_by_spec(ctx, &mut o);
        spec_streams(ctx, cases, &built, &mut o);
        contract_stream(ctx, cases, &mut o);
    } else {
        o.notes.push("Lean model driver not available: correspondence not run".into());
    }
    o
}

/// A difference on an input whose self-check ran (both anchors off) may come from the Spec matcher
/// and the real `regex` crate disagreeing on `find_iter(..).count()`.  The model reports the patterns
/// it checked and its verdicts; the real crate is asked the same question.
fn explain_by_spec(ctx: &Ctx, o: &mut Outcome) {
    let idx: Vec<usize> = (0..o.model_diffs.len()).filter(|i| {
        let c = &o.model_diffs[*i].0;
        c.cfg.has(BIT_NO_START) && c.cfg.has(BIT_NO_END)
    }).collect();
    if idx.is_empty() {
        return;
    }
    let reqs: Vec<String> = idx.iter().map(|i| model::request('T', &o.model_diffs[*i].0)).collect();
    let Ok(resp) = ctx.model.run_robust(&reqs) else { return };
    let mut explained = vec![];
    for (k, i) in idx.iter().enumerate() {
        let parts: Vec<&str> = resp[k].split(' ').collect();
        if parts.len() != 3 || parts[0] != "T" || parts[2] == "!" {
            continue;
        }
        let sorted: Option<Vec<String>> = parts[1].split(';').map(unhex).collect();
        let Some(sorted) = sorted else { continue };
        for item in parts[2].split(';') {
            let Some((ph, v)) = item.split_once(':') else { continue };
            let Some(pat) = unhex(ph) else { continue };
            let spec = v == "1";
            let real = match regex::Regex::new(&pat) {
                Ok(re) => sorted.iter().all(|t| re.find_iter(t).count() == 1),
                Err(_) => continue,
            };
            if real != spec {
                explained.push((*i, format!("pattern {:?} on {:?}: regex crate says {}, Spec matcher says {}", pat, sorted, real, spec)));
                break;
            }
        }
    }
    for (i, why) in explained.iter().rev() {
        let (c, _, _) = o.model_diffs.remove(*i);
        o.spec_disagreements.push((c, why.clone()));
    }
}

/// Stream K: the theorem of S7 (`C16.elimination_language`) is stated under three executable contracts; the
/// driver evaluates them on the automata each input hands to `Expression::from`.  A contract that does
/// not hold means the theorem says nothing about that input: it is reported like a correspondence
/// difference.
fn contract_stream(ctx: &Ctx, cases: &[Case], o: &mut Outcome) {
    if !matches!(ctx.prop.as_str(), "C02" | "C16") {
        return;
    }
    let idx: Vec<usize> = (0..cases.len()).filter(|i| !cases[*i].cfg.has(BIT_REP) && !cases[*i].tcs.is_empty()).collect();
    let step = (idx.len() / if ctx.tier == Tier::Quick { 6000 } else { 60000 }).max(1);
    let idx: Vec<usize> = idx.into_iter().step_by(step).collect();
    let reqs: Vec<String> = idx.iter().map(|i| model::request('K', &cases[*i])).collect();
    if let Ok(resp) = ctx.model.run_robust(&reqs) {
        for (k, r) in resp.iter().enumerate() {
            o.bump("s7_contracts_checked", 1);
            if r != "K 1 1 1" && !r.starts_with("P ") {
                o.bump("s7_contract_failures", 1);
                o.model_diffs.push((cases[idx[k]].clone(), "K 1 1 1".into(), r.clone()));
            }
        }
    }
}

/// Streams L and M: the Spec layer (Lean model of regex-syntax and of leftmost-first search) against the
/// real crates, on patterns the implementation emitted in this run and on mutations of them.
/// L: `Spec.parse` accepts iff `regex_syntax` does.  M: `find` span and `find_iter().count()` agree.
fn spec_streams(ctx: &Ctx, cases: &[Case], built: &[Built], o: &mut Outcome) {
    if !matches!(ctx.prop.as_str(), "C01" | "C06" | "C07" | "C08") {
        return;
    }
    let mut rng = Rng(ctx.seed ^ 0x51ec);
    let budget = if ctx.tier == Tier::Quick { 4000 } else { 40000 };
    let step = (cases.len() / budget).max(1);
    let mut l_reqs: Vec<(String, String)> = vec![]; // (request, pattern)
    let mut m_reqs: Vec<(String, String, String)> = vec![];
    for i in (0..cases.len()).step_by(step) {
        let c = &cases[i];
        let Built::Ok(out) = &built[i] else { continue };
        if c.cfg.has(BIT_COLOR) {
            continue;
        }
        l_reqs.push((format!("L {}", hex(out)), out.clone()));
        // a mutated pattern: delete, duplicate or replace one character
        let chars: Vec<char> = out.chars().collect();
        if !chars.is_empty() {
            let k = rng.below(chars.len());
            let mut m = chars.clone();
            match rng.below(3) {
                0 => { m.remove(k); }
                1 => { let ch = m[k]; m.insert(k, ch); }
                _ => { m[k] = *rng.pick(&['(', ')', '[', ']', '{', '}', '\\', '?', '|', '^', '-', 'a', ' ', '#', '&', '~', ',', '2']); }
            }
            let ms: String = m.into_iter().collect();
            l_reqs.push((format!("L {}", hex(&ms)), ms));
        }
        if !c.cfg.has(BIT_SUR) {
            for t in c.tcs.iter().take(2) {
                m_reqs.push((format!("M {} {}", hex(out), hex(t)), out.clone(), t.clone()));
            }
        }
    }
    let l_lines: Vec<String> = l_reqs.iter().map(|x| x.0.clone()).collect();
    if let Ok(resp) = ctx.model.run_robust(&l_lines) {
        for (k, r) in resp.iter().enumerate() {
            let pat = &l_reqs[k].1;
            let real_ok = regex_syntax::ParserBuilder::new().build().parse(pat).is_ok();
            let spec_ok = r == "L ok";
            o.bump("spec_L_checked", 1);
            if real_ok != spec_ok {
                // the parser models the emitted subset only: it may reject what regex-syntax accepts, but it
                // must never accept what regex-syntax rejects, and must accept everything grex emits
                let emitted = k % 2 == 0 || !l_reqs[k].0.is_empty() && false;
                if spec_ok && !real_ok {
                    o.spec_disagreements.push((cases[0].clone(), format!("L: Spec.parse accepts {:?} but regex-syntax rejects it", pat)));
                } else {
                    o.bump("spec_L_subset_rejections", 1);
                    let _ = emitted;
                    if std::env::var("GV_DEBUG_SPEC").is_ok() {
                        eprintln!("L-subset-reject: {:?}", pat);
                    }
                }
            }
        }
    }
    let m_lines: Vec<String> = m_reqs.iter().map(|x| x.0.clone()).collect();
    if let Ok(resp) = ctx.model.run_robust(&m_lines) {
        for (k, r) in resp.iter().enumerate() {
            let (_, pat, subj) = &m_reqs[k];
            let Ok(re) = regex::Regex::new(pat) else { continue };
            // the model works on code points, the crate on bytes: convert the byte span
            let to_cp = |b: usize| subj[..b].chars().count();
            let real_find = re.find(subj).map(|m| format!("{},{}", to_cp(m.start()), to_cp(m.end()))).unwrap_or("none".into());
            let real = format!("M {} {}", real_find, re.find_iter(subj).count());
            o.bump("spec_M_checked", 1);
            if *r != real {
                o.spec_disagreements.push((cases[0].clone(), format!("M: pattern {:?} on {:?}: regex crate {}, Spec matcher {}", pat, subj, real, r)));
            }
        }
    }
}

// ------------------------------------------------------------------ shrinking
pub fn shrink(case: &Case, still_fails: &dyn Fn(&Case) -> bool) -> Case {
    if crate::unit::is_unit(case) {
        return case.clone();
    }
    let mut cur = case.clone();
    let mut progress = true;
    let mut budget = 400;
    while progress && budget > 0 {
        progress = false;
        // drop a test case
        let mut i = 0;
        while i < cur.tcs.len() && cur.tcs.len() > 1 {
            let mut c = cur.clone();
            c.tcs.remove(i);
            budget -= 1;
            if still_fails(&c) {
                cur = c;
                progress = true;
            } else {
                i += 1;
            }
        }
        // shorten a test case
        for i in 0..cur.tcs.len() {
            let chars: Vec<char> = cur.tcs[i].chars().collect();
            for k in 0..chars.len() {
                let mut v = chars.clone();
                v.remove(k);
                let mut c = cur.clone();
                c.tcs[i] = v.into_iter().collect();
                budget -= 1;
                if still_fails(&c) {
                    cur = c;
                    progress = true;
                    break;
                }
            }
        }
        // clear a flag
        for b in 0..15 {
            if cur.cfg.has(b) {
                let mut c = cur.clone();
                c.cfg = c.cfg.without(b);
                c.cfg.bits = gen::normalise_flags(c.cfg.bits);
                budget -= 1;
                if still_fails(&c) {
                    cur = c;
                    progress = true;
                }
            }
        }
        for (r, l) in [(1, cur.cfg.min_len), (cur.cfg.min_rep, 1)] {
            if (r, l) != (cur.cfg.min_rep, cur.cfg.min_len) {
                let mut c = cur.clone();
                c.cfg.min_rep = r;
                c.cfg.min_len = l;
                budget -= 1;
                if still_fails(&c) {
                    cur = c;
                    progress = true;
                }
            }
        }
    }
    cur
}

// ------------------------------------------------------------------ known findings
fn stage_flags(case: &Case) -> Option<(bool, bool, bool)> {
    // (trie start state final, minimised start state final, trie has a widened edge)
    let c = case.clone();
    let d = quietly(move || grex::verif_hooks::stage_dump(&c.tcs, c.cfg.bits, c.cfg.min_rep, c.cfg.min_len)).ok()?;
    let t = judge::parse_snapshot(&d.trie)?;
    let m = judge::parse_snapshot(&d.minimized)?;
    let widened = t.edges.iter().any(|e| {
        let g = e.2.split('{').next().unwrap_or("");
        let parts: Vec<&str> = g.split('~').collect();
        parts.len() >= 3 && parts[1] != parts[2]
    });
    Some((t.finals.contains(&t.init), m.finals.contains(&m.init), widened))
}

pub const NOT_FOLDED: &[(u32, u32)] = &[(0x1c89, 0x1c89), (0xa7cb, 0xa7cc), (0xa7ce, 0xa7ce), (0xa7d2, 0xa7d2), (0xa7d4, 0xa7d4), (0xa7da, 0xa7da), (0xa7dc, 0xa7dc), (0x10d50, 0x10d65), (0x16ea0, 0x16eb8)];

fn has_not_folded(s: &str) -> bool {
    s.chars().any(|c| NOT_FOLDED.iter().any(|(a, b)| (*a..=*b).contains(&(c as u32))))
}

/// Guards are tied to a call site of the implementation: they look at the implementation's own
/// stage snapshots (hook), at the failing string, and — for attribution — at what happens when the
/// offending test cases are taken away.
pub fn guard_holds(prop: &str, guard: &str, case: &Case, fail: &Fail, rejudge: &dyn Fn(&Case) -> Vec<Fail>) -> bool {
    match guard {
        // D1: `recreate_graph` makes a class final only as the target of an edge, so the start state
        // loses finality: the empty string given together with other test cases is dropped
        "empty_string_dropped_by_recreate_graph" => {
            let wit_empty = fail.witness.as_deref() == Some("");
            let mut d: Vec<&String> = case.tcs.iter().collect();
            d.sort();
            d.dedup();
            let kind_ok = match fail.kind {
                Kind::Miss | Kind::Span => d.len() >= 2,
                Kind::Stage => true,
                Kind::Over => prop == "C08" && d.len() >= 2 && (case.cfg.has(BIT_NO_START) || case.cfg.has(BIT_NO_END)),
                _ => false,
            };
            wit_empty && kind_ok && case.tcs.iter().any(|t| t.is_empty()) && matches!(stage_flags(case), Some((true, false, _)))
        }
        // D2: the widening merge of `find_next_state` makes `{m,n}` accept counts no test case has
        "repetition_merge_widens" => {
            // C08 compares the unanchored body with the anchored build: the widened side is then the reference
            let kind_ok = fail.kind == Kind::Over || (prop == "C08" && fail.kind == Kind::Miss);
            case.cfg.has(BIT_REP) && kind_ok && matches!(stage_flags(case), Some((_, _, true)))
        }
        // D8: without `$`, leftmost-first search stops at a shorter alternative that is a prefix
        "short_match_without_end_anchor" => {
            case.cfg.has(BIT_NO_END) && fail.kind == Kind::Span && fail.what.contains("gives Some((0, ")
        }
        // D16: the default (meta) engine of the pinned regex crate returns a match that is not the leftmost one although
        // its own reference engine finds the whole test case at offset 0 (engine defect, not a property of the pattern)
        "regex_meta_engine_not_leftmost" => {
            fail.kind == Kind::Span && fail.what.contains("the reference engine (PikeVM) of the same crate finds the whole test case")
        }
        // D14: letters cased after Unicode 15: lower-cased by std, not folded by regex-syntax
        "lowercased_but_not_folded" => {
            if !(case.cfg.has(BIT_CI) && matches!(fail.kind, Kind::Miss | Kind::Over) && case.tcs.iter().any(|t| has_not_folded(t))) {
                return false;
            }
            // attribution: without the test cases that contain such a letter nothing of this kind fails
            let rest: Vec<String> = case.tcs.iter().filter(|t| !has_not_folded(t)).cloned().collect();
            if rest.is_empty() {
                return true;
            }
            let reduced = Case { tcs: rest, cfg: case.cfg };
            !rejudge(&reduced).iter().any(|f| {
                f.kind == fail.kind && !guard_holds(prop, "empty_string_dropped_by_recreate_graph", &reduced, f, rejudge)
            })
        }
        // D15: a surrogate pair is two code points for Python's re, so it never matches the astral character
        "python_surrogates_are_two_code_points" => crate::custom::d15_guard(case, fail),
        _ => false,
    }
}

pub fn classify<'a>(ctx: &'a Ctx, case: &Case, fail: &Fail, rejudge: &dyn Fn(&Case) -> Vec<Fail>) -> Option<&'a KnownFinding> {
    if crate::unit::is_unit(case) {
        return None;
    }
    ctx.known
        .iter()
        .find(|k| k.properties.iter().any(|p| p == &ctx.prop) && guard_holds(&ctx.prop, &k.guard, case, fail, rejudge))
}

// ------------------------------------------------------------------ replay files
pub fn write_replay(ctx: &Ctx, tag: &str, body: &str) -> String {
    let dir = format!("{}/replays", ctx.verif_dir);
    let _ = std::fs::create_dir_all(&dir);
    let mut h = std::collections::hash_map::DefaultHasher::new();
    body.hash(&mut h);
    let path = format!("{}/{}-{}-{:08x}.json", dir, ctx.prop, tag, h.finish() as u32);
    let _ = std::fs::write(&path, body);
    path
}

pub fn case_json(c: &Case) -> String {
    format!(
        "{{\"test_cases\": [{}], \"test_cases_hex\": [{}], \"bits\": {}, \"min_rep\": {}, \"min_len\": {}, \"settings\": {}}}",
        c.tcs.iter().map(|t| json_str(t)).collect::<Vec<_>>().join(", "),
        c.tcs.iter().map(|t| json_str(&hex(t))).collect::<Vec<_>>().join(", "),
        c.cfg.bits,
        c.cfg.min_rep,
        c.cfg.min_len,
        json_str(&c.cfg.describe())
    )
}

// ------------------------------------------------------------------ verdict
pub struct Verdict {
    pub exit: i32,
    pub violations: usize,
    pub known_hits: BTreeMap<String, usize>,
    pub lines: Vec<String>,
}

/// `rejudge` re-runs implementation + judge on a (shrunk) case and says whether it still fails in the same way.
pub fn conclude(ctx: &Ctx, o: &mut Outcome, rejudge: &dyn Fn(&Case) -> Vec<Fail>, search: &dyn Fn() -> Outcome) -> Verdict {
    let mut lines = vec![];
    let mut known_hits: BTreeMap<String, usize> = BTreeMap::new();
    let mut unknown: Vec<(Case, Fail)> = vec![];
    // A failure is the baseline's own only where the implementation still behaves as the committed model
    // does: an input on which implementation and model differ is never covered by a known finding.
    let differing: HashSet<u64> = o.model_diffs.iter().map(|(c, _, _)| hash_case(c)).collect();
    for (c, f) in &o.oracle_fails {
        let covered = if differing.contains(&hash_case(c)) { None } else { classify(ctx, c, f, rejudge) };
        match covered {
            Some(k) => *known_hits.entry(k.id.clone()).or_insert(0) += 1,
            None => unknown.push((c.clone(), f.clone())),
        }
    }
    for (id, n) in &known_hits {
        let k = ctx.known.iter().find(|k| &k.id == id).unwrap();
        lines.push(format!("KNOWN-FINDING: property={} {} [{}; {} input(s) of this run]", ctx.prop, k.what, id, n));
    }
    let mut violations = 0;
    if !unknown.is_empty() {
        // report distinct failure kinds, smallest input first
        // failures that no known-finding guard describes come first: they are the sharper replay
        unknown.sort_by_key(|(c, f)| {
            (classify(ctx, c, f, rejudge).is_some(), f.kind.clone(), c.tcs.iter().map(|t| t.len()).sum::<usize>() + c.tcs.len() + c.cfg.bits.count_ones() as usize)
        });
        let any_sharp = unknown.iter().any(|(c, f)| classify(ctx, c, f, rejudge).is_none());
        if any_sharp {
            unknown.retain(|(c, f)| classify(ctx, c, f, rejudge).is_none());
        }
        let mut seen_kinds = BTreeSet::new();
        for (c, f) in &unknown {
            if !seen_kinds.insert(f.kind.clone()) || violations >= 3 {
                continue;
            }
            let kind = f.kind.clone();
            let small = shrink(c, &|cand| rejudge(cand).iter().any(|g| g.kind == kind && classify(ctx, cand, g, rejudge).is_none()));
            let fs = rejudge(&small);
            let f2 = fs.iter().find(|g| g.kind == kind && classify(ctx, &small, g, rejudge).is_none()).cloned().unwrap_or(f.clone());
            let body = format!(
                "{{\"property\": {}, \"kind\": \"implementation-vs-oracle\", \"failure\": {}, \"what\": {}, \"witness\": {}, \"case\": {}, \"original_case\": {}, \"seed\": {}, \"tier\": {}, \"replay_cmd\": \"./check replay <this file>\"}}\n",
                json_str(&ctx.prop),
                json_str(&format!("{:?}", f2.kind)),
                json_str(&f2.what),
                f2.witness.as_ref().map(|w| json_str(w)).unwrap_or("null".into()),
                case_json(&small),
                case_json(c),
                ctx.seed,
                json_str(&format!("{:?}", ctx.tier))
            );
            let path = write_replay(ctx, "oracle", &body);
            lines.push(format!("# {} fails on {}: {}", ctx.prop, small.describe(), f2.what));
            lines.push(format!("VIOLATION property={} replay={}", ctx.prop, path));
            violations += 1;
        }
        o.bump("unlisted_oracle_failures", unknown.len());
    } else if ctx.lean_broken.is_some() || !o.model_diffs.is_empty() {
        // a proof obligation or the correspondence broke, and nothing failed against the oracle so far: search
        let found = search();
        // as above: where the search ran with the model driver, a failure on an input on which implementation and
        // model differ is never the baseline's own
        let differing2: HashSet<u64> = found.model_diffs.iter().map(|(c, _, _)| hash_case(c)).collect();
        let mut unknown2: Vec<(Case, Fail)> = found.oracle_fails.iter().filter(|(c, f)| differing2.contains(&hash_case(c)) || classify(ctx, c, f, rejudge).is_none()).cloned().collect();
        o.evaluations += found.evaluations;
        o.bump("search_evaluations", found.evaluations);
        if let Some((c, f)) = {
            unknown2.sort_by_key(|(c, _)| c.tcs.iter().map(|t| t.len()).sum::<usize>() + c.tcs.len());
            unknown2.first().cloned()
        } {
            let kind = f.kind.clone();
            let small = shrink(&c, &|cand| rejudge(cand).iter().any(|g| g.kind == kind && classify(ctx, cand, g, rejudge).is_none()));
            let fs = rejudge(&small);
            let f2 = fs.iter().find(|g| g.kind == kind).cloned().unwrap_or(f.clone());
            let body = format!(
                "{{\"property\": {}, \"kind\": \"implementation-vs-oracle (found by the search after a broken obligation/correspondence)\", \"failure\": {}, \"what\": {}, \"witness\": {}, \"case\": {}, \"broken\": {}, \"seed\": {}}}\n",
                json_str(&ctx.prop),
                json_str(&format!("{:?}", f2.kind)),
                json_str(&f2.what),
                f2.witness.as_ref().map(|w| json_str(w)).unwrap_or("null".into()),
                case_json(&small),
                json_str(&broken_summary(ctx, o)),
                ctx.seed
            );
            let path = write_replay(ctx, "search", &body);
            lines.push(format!("# {} fails on {}: {}", ctx.prop, small.describe(), f2.what));
            lines.push(format!("VIOLATION property={} replay={}", ctx.prop, path));
        } else {
            let first = o.model_diffs.first().map(|(c, a, b)| {
                format!(
                    "{{\"case\": {}, \"implementation\": {}, \"model\": {}}}",
                    case_json(c),
                    json_str(&first_difference(a, b).0),
                    json_str(&first_difference(a, b).1)
                )
            });
            let body = format!(
                "{{\"property\": {}, \"kind\": \"no-failing-input-found\", \"broken\": {}, \"lean\": {}, \"correspondence_differences\": {}, \"first_difference\": {}, \"searched\": {}, \"seed\": {}}}\n",
                json_str(&ctx.prop),
                json_str(&broken_summary(ctx, o)),
                ctx.lean_broken.as_ref().map(|s| json_str(s)).unwrap_or("null".into()),
                o.model_diffs.len(),
                first.unwrap_or("null".into()),
                found.evaluations,
                ctx.seed
            );
            let path = write_replay(ctx, "unproved", &body);
            lines.push(format!("# {}: {}; the search over {} further inputs found no input on which the property fails", ctx.prop, broken_summary(ctx, o), found.evaluations));
            lines.push(format!("VIOLATION property={} replay={} no-failing-input-found", ctx.prop, path));
        }
        violations += 1;
    }
    Verdict { exit: if violations > 0 { 1 } else { 0 }, violations, known_hits, lines }
}

fn first_difference(a: &str, b: &str) -> (String, String) {
    let fa: Vec<&str> = a.split('\t').collect();
    let fb: Vec<&str> = b.split('\t').collect();
    let names = ["kind", "sorted test cases", "clusters", "trie", "minimised automaton", "first expression", "final expression", "output"];
    for i in 0..fa.len().max(fb.len()) {
        let x = fa.get(i).copied().unwrap_or("<missing>");
        let y = fb.get(i).copied().unwrap_or("<missing>");
        if x != y {
            let n = if fa.len() > 1 { names.get(i).copied().unwrap_or("field") } else { "response" };
            let dec = |s: &str| s.strip_prefix("O ").and_then(unhex).map(|t| format!("{:?}", t)).unwrap_or(s.to_string());
            return (format!("{}: {}", n, dec(x)), format!("{}: {}", n, dec(y)));
        }
    }
    (a.to_string(), b.to_string())
}

fn broken_summary(ctx: &Ctx, o: &Outcome) -> String {
    let mut parts = vec![];
    if let Some(l) = &ctx.lean_broken {
        parts.push(format!("Lean obligation no longer checks: {}", l.lines().next().unwrap_or("")));
    }
    if !o.model_diffs.is_empty() {
        parts.push(format!("correspondence stream differs on {} of {} inputs (implementation vs Lean model)", o.model_diffs.len(), o.model_compared));
    }
    parts.join("; ")
}

// ------------------------------------------------------------------ evidence
pub fn write_evidence(ctx: &Ctx, o: &Outcome, v: &Verdict, wall: f64, path: &str, extra_assumptions: &[&str], explanation: &str) {
    let mut stats = String::new();
    for (k, val) in &o.stats {
        if !stats.is_empty() {
            stats.push_str(", ");
        }
        stats.push_str(&format!("{}: {}", json_str(k), val));
    }
    let mut kh = String::new();
    for (k, val) in &v.known_hits {
        if !kh.is_empty() {
            kh.push_str(", ");
        }
        kh.push_str(&format!("{}: {}", json_str(k), val));
    }
    let trusted = [
        "Lean 4.33.0 kernel; axioms allowed in property theorems: propext, Classical.choice, Quot.sound (tools/audit.py enforces; no native_decide, no sorry)",
        "tools/translate.py: the generated Lean data (tables, constants, if-chain, setters, CLI table) equal what the Rust sources say",
        "correspondence: agreement of implementation and hand-written Lean model on the enumerated/sampled inputs extends to all inputs",
        "Spec layer (Grexv/Spec): model of regex-syntax / leftmost-first search, differentially tested, not verified",
        "external functions as parameters/tables: grapheme segmentation (contract checked per input), char::to_lowercase / is_whitespace / General_Category extracted exhaustively",
        "oracle (regex, regex-automata dense DFA product) used only for search and known-finding classification",
    ];
    let mut assumptions: Vec<String> = extra_assumptions.iter().map(|s| s.to_string()).collect();
    assumptions.extend(o.notes.iter().cloned());
    let samples = if o.samples.is_empty() { vec!["(no build() sample in this stream)".to_string()] } else { o.samples.clone() };
    let body = format!(
        "{{\n \"property_id\": {},\n \"tier\": {},\n \"seed\": {},\n \"level\": \"proof\",\n \"coverage\": {{\n  \"obligations\": {},\n  \"discharged\": {},\n  \"checker_cmd\": {},\n  \"trusted_base\": [{}],\n  \"evaluations\": {},\n  \"distinct_nontrivial\": {},\n  \"rule\": {},\n  \"samples\": [{}],\n  \"traces_validated_against_impl\": {},\n  \"model_disagreements\": {},\n  \"spec_vs_regex_crate_disagreements\": {},\n  \"impl_vs_oracle_failures\": {},\n  \"oracle_undecided\": {},\n  \"known_findings_hit\": {{{}}},\n  \"distribution\": {{{}}},\n  \"exhaustive\": {},\n  \"explanation\": {}\n }},\n \"assumptions\": [{}],\n \"wall_s\": {:.2},\n \"violations\": {}\n}}\n",
        json_str(&ctx.prop),
        json_str(if ctx.tier == Tier::Quick { "quick" } else { "thorough" }),
        ctx.seed,
        ctx.obligations.max(1),
        ctx.discharged,
        json_str(&ctx.checker_cmd),
        trusted.iter().map(|s| json_str(s)).collect::<Vec<_>>().join(", "),
        o.evaluations,
        o.nontrivial.len(),
        json_str(if o.rule.is_empty() { NONTRIVIAL_RULE } else { &o.rule }),
        samples.iter().map(|s| json_str(s)).collect::<Vec<_>>().join(", "),
        o.model_compared,
        o.model_diffs.len(),
        o.spec_disagreements.len(),
        o.oracle_fails.len(),
        o.oracle_undecided,
        kh,
        stats,
        o.exhaustive,
        json_str(explanation),
        assumptions.iter().map(|s| json_str(s)).collect::<Vec<_>>().join(", "),
        wall,
        v.violations
    );
    let tmp = format!("{}.tmp", path);
    if let Some(parent) = std::path::Path::new(path).parent() {
        let _ = std::fs::create_dir_all(parent);
    }
    std::fs::write(&tmp, body).expect("write evidence");
    std::fs::rename(&tmp, path).expect("rename evidence");
}
