mod gen;
mod judge;
mod model;
mod oracle;
mod util;

use util::*;

fn probe() {
    silence_panics();
    let classes = oracle::Classes::new();
    let mut rng = Rng(1);
    let ab = gen::words(&["a", "b"], 3);
    let pool: Vec<Vec<String>> = gen::subsets(&ab, 3);
    println!("pool {}", pool.len());
    let flagsets: Vec<(&str, u32)> = vec![
        ("default", 0),
        ("x", 1 << BIT_VERB),
        ("g", 1 << BIT_CAP),
        ("e", 1 << BIT_ESC),
        ("r", 1 << BIT_REP),
        ("noanchors", 1 << BIT_NO_START | 1 << BIT_NO_END),
        ("nostart", 1 << BIT_NO_START),
        ("noend", 1 << BIT_NO_END),
    ];
    for (name, bits) in flagsets {
        let cases: Vec<Case> = pool.iter().map(|t| Case { tcs: t.clone(), cfg: Cfg::new(bits) }).collect();
        let res = par_map(&cases, 16, |c| {
            let b = build_impl(c);
            let mut f = judge::judge_sound(c, &b);
            if f.is_empty() {
                let nc = Case { tcs: c.tcs.clone(), cfg: c.cfg.without(BIT_REP) };
                f.extend(judge::judge_exact(&classes, &nc, &b));
            }
            if f.is_empty() && (c.cfg.has(BIT_NO_START) || c.cfg.has(BIT_NO_END)) {
                f.extend(judge::judge_search_spans(c, b.ok().unwrap()));
            }
            f
        });
        let mut n = 0;
        let mut shown = 0;
        for (c, f) in cases.iter().zip(res.iter()) {
            if !f.is_empty() {
                n += 1;
                if shown < 4 {
                    shown += 1;
                    println!("  [{}] {:?}: {:?} {}", name, c.tcs, f[0].kind, f[0].what);
                }
            }
        }
        println!("{}: {} failing of {}", name, n, cases.len());
    }
    let _ = &mut rng;
}

fn corr(driver: &str, seed: u64) {
    silence_panics();
    let m = model::Model { driver: Some(driver.to_string()), procs: 16 };
    let mut rng = Rng(seed);
    let mut pools: Vec<(&str, Vec<Vec<String>>)> = vec![];
    pools.push(("ab3", gen::subsets(&gen::words(&["a", "b"], 3), 3)));
    for (name, atoms) in [("meta", gen::META), ("clusters", gen::CLUSTERS), ("ws", gen::WS), ("case", gen::CASE), ("boundary", gen::BOUNDARY), ("colorish", gen::COLORISH), ("lookalike", gen::LOOKALIKE), ("classy", gen::CLASSY)] {
        let w = gen::words(atoms, 2);
        pools.push((name, gen::sample_subsets(&mut rng, &w, 3, 300)));
        pools.push((name, (0..200).map(|_| gen::random_list(&mut rng, atoms)).collect()));
    }
    let all_bits: Vec<u32> = (0..15).collect();
    let flags = gen::pairwise_flags(&mut rng, &all_bits);
    println!("flag rows {}", flags.len());
    let mut total = 0;
    let mut bad = 0;
    for (name, pool) in &pools {
        let mut cases = vec![];
        for t in pool {
            for f in &flags {
                let mut cfg = Cfg::new(gen::normalise_flags(*f));
                if cfg.has(BIT_REP) {
                    cfg.min_rep = 1 + rng.below(3) as u32;
                    cfg.min_len = 1 + rng.below(3) as u32;
                }
                cases.push(Case { tcs: t.clone(), cfg });
            }
        }
        let imp: Vec<String> = par_map(&cases, 16, |c| model::stage_response(c));
        let reqs: Vec<String> = cases.iter().map(|c| model::request('S', c)).collect();
        let got = m.run_robust(&reqs).expect("driver");
        let mut shown = 0;
        for ((c, a), b) in cases.iter().zip(imp.iter()).zip(got.iter()) {
            total += 1;
            if a != b {
                bad += 1;
                if shown < 3 {
                    shown += 1;
                    let fa: Vec<&str> = a.split('\t').collect();
                    let fb: Vec<&str> = b.split('\t').collect();
                    let idx = fa.iter().zip(fb.iter()).position(|(x, y)| x != y).unwrap_or(99);
                    println!("[{}] {} first differing field {}\n   impl : {}\n   model: {}", name, c.describe(), idx,
                        fa.get(idx).unwrap_or(&a.as_str()), fb.get(idx).unwrap_or(&b.as_str()));
                }
            }
        }
        println!("{}: {} cases, cumulative disagreements {}", name, cases.len(), bad);
    }
    println!("total {} disagreements {}", total, bad);
}

/// Exhaustive extraction of the finite-domain behaviour of external functions the model uses
/// as tables: `char::to_lowercase`, `char::is_whitespace`, unic `GeneralCategory` mark/other.
fn extract(path: &str) {
    use std::fmt::Write;
    let mut out = String::new();
    let mut emit_ranges = |tag: &str, pred: &dyn Fn(char) -> bool, out: &mut String| {
        let mut start: Option<u32> = None;
        let mut prev = 0u32;
        for v in 0..=0x10ffffu32 {
            let inside = char::from_u32(v).map(|c| pred(c)).unwrap_or(false);
            match (inside, start) {
                (true, None) => start = Some(v),
                (false, Some(s)) => {
                    writeln!(out, "{} {} {}", tag, s, prev).unwrap();
                    start = None;
                }
                _ => {}
            }
            prev = v;
        }
        if let Some(s) = start {
            writeln!(out, "{} {} {}", tag, s, 0x10ffff).unwrap();
        }
    };
    emit_ranges("M", &|c| grex::verif_hooks::is_mark_or_other(c), &mut out);
    emit_ranges("W", &|c| c.is_whitespace(), &mut out);
    for v in 0..=0x10ffffu32 {
        if let Some(c) = char::from_u32(v) {
            let low: Vec<u32> = c.to_lowercase().map(|x| x as u32).collect();
            if low != vec![v] {
                writeln!(out, "L {} {}", v, low.iter().map(|x| x.to_string()).collect::<Vec<_>>().join(" ")).unwrap();
            }
        }
    }
    std::fs::write(path, out).expect("write tables");
}

fn main() {
    let args: Vec<String> = std::env::args().collect();
    match args.get(1).map(|s| s.as_str()) {
        Some("probe") => probe(),
        Some("extract") => extract(&args[2]),
        Some("corr") => corr(&args[2], args.get(3).and_then(|s| s.parse().ok()).unwrap_or(1)),
        _ => eprintln!("usage: gv probe"),
    }
}
