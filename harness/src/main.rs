mod check;
mod unit;
mod custom;
mod gen;
mod judge;
mod minijson;
mod model;
mod props;
mod oracle;
mod util;

use util::*;

fn probe() {
    silence_panics();
    let classes = oracle::Classes::new();
    let mut rng = Rng(1);
    let ab = gen::words(&["a", "b"], 3);
    let pool: Vec<Vec<String>> = gen::subsets(&ab, 3);
    println!("pool {}", pool.len());
    let flagsets: Vec<(&str, u32)> = vec![
        ("default", 0),
        ("x", 1 << BIT_VERB),
        ("g", 1 << BIT_CAP),
        ("e", 1 << BIT_ESC),
        ("r", 1 << BIT_REP),
        ("noanchors", 1 << BIT_NO_START | 1 << BIT_NO_END),
        ("nostart", 1 << BIT_NO_START),
        ("noend", 1 << BIT_NO_END),
    ];
    for (name, bits) in flagsets {
        let cases: Vec<Case> = pool.iter().map(|t| Case { tcs: t.clone(), cfg: Cfg::new(bits) }).collect();
        let res = par_map(&cases, 16, |c| {
            let b = build_impl(c);
            let mut f = judge::judge_sound(c, &b);
            if f.is_empty() {
                let nc = Case { tcs: c.tcs.clone(), cfg: c.cfg.without(BIT_REP) };
                f.extend(judge::judge_exact(&classes, &nc, &b));
            }
            if f.is_empty() && (c.cfg.has(BIT_NO_START) || c.cfg.has(BIT_NO_END)) {
                f.extend(judge::judge_search_spans(c, b.ok().unwrap()));
            }
            f
        });
        let mut n = 0;
        let mut shown = 0;
        for (c, f) in cases.iter().zip(res.iter()) {
            if !f.is_empty() {
                n += 1;
                if shown < 4 {
                    shown += 1;
                    println!("  [{}] {:?}: {:?} {}", name, c.tcs, f[0].kind, f[0].what);
                }
            }
        }
        println!("{}: {} failing of {}", name, n, cases.len());
    }
    let _ = &mut rng;
}

fn corr(driver: &str, seed: u64) {
    silence_panics();
    let m = model::Model { driver: Some(driver.to_string()), procs: 16 };
    let mut rng = Rng(seed);
    let mut pools: Vec<(&str, Vec<Vec<String>>)> = vec![];
    pools.push(("ab3", gen::subsets(&gen::words(&["a", "b"], 3), 3)));
    for (name, atoms) in [("meta", gen::META), ("clusters", gen::CLUSTERS), ("ws", gen::WS), ("case", gen::CASE), ("boundary", gen::BOUNDARY), ("colorish", gen::COLORISH), ("lookalike", gen::LOOKALIKE), ("classy", gen::CLASSY)] {
        let w = gen::words(atoms, 2);
        pools.push((name, gen::sample_subsets(&mut rng, &w, 3, 300)));
        pools.push((name, (0..200).map(|_| gen::random_list(&mut rng, atoms)).collect()));
    }
    let all_bits: Vec<u32> = (0..15).collect();
    let flags = gen::pairwise_flags(&mut rng, &all_bits);
    println!("flag rows {}", flags.len());
    let mut total = 0;
    let mut bad = 0;
    for (name, pool) in &pools {
        let mut cases = vec![];
        for t in pool {
            for f in &flags {
                let mut cfg = Cfg::new(gen::normalise_flags(*f));
                if cfg.has(BIT_REP) {
                    cfg.min_rep = 1 + rng.below(3) as u32;
                    cfg.min_len = 1 + rng.below(3) as u32;
                }
                cases.push(Case { tcs: t.clone(), cfg });
            }
        }
        let imp: Vec<String> = par_map(&cases, 16, |c| model::stage_response(c));
        let reqs: Vec<String> = cases.iter().map(|c| model::request('S', c)).collect();
        let got = m.run_robust(&reqs).expect("driver");
        let mut shown = 0;
        for ((c, a), b) in cases.iter().zip(imp.iter()).zip(got.iter()) {
            total += 1;
            if a != b {
                bad += 1;
                if shown < 3 {
                    shown += 1;
                    let fa: Vec<&str> = a.split('\t').collect();
                    let fb: Vec<&str> = b.split('\t').collect();
                    let idx = fa.iter().zip(fb.iter()).position(|(x, y)| x != y).unwrap_or(99);
                    println!("[{}] {} first differing field {}\n   impl : {}\n   model: {}", name, c.describe(), idx,
                        fa.get(idx).unwrap_or(&a.as_str()), fb.get(idx).unwrap_or(&b.as_str()));
                }
            }
        }
        println!("{}: {} cases, cumulative disagreements {}", name, cases.len(), bad);
    }
    println!("total {} disagreements {}", total, bad);
}

/// Exhaustive extraction of the finite-domain behaviour of external functions the model uses
/// as tables: `char::to_lowercase`, `char::is_whitespace`, unic `GeneralCategory` mark/other.
fn extract(path: &str) {
    use std::fmt::Write;
    let mut out = String::new();
    let mut emit_ranges = |tag: &str, pred: &dyn Fn(char) -> bool, out: &mut String| {
        let mut start: Option<u32> = None;
        let mut prev = 0u32;
        for v in 0..=0x10ffffu32 {
            let inside = char::from_u32(v).map(|c| pred(c)).unwrap_or(false);
            match (inside, start) {
                (true, None) => start = Some(v),
                (false, Some(s)) => {
                    writeln!(out, "{} {} {}", tag, s, prev).unwrap();
                    start = None;
                }
                _ => {}
            }
            prev = v;
        }
        if let Some(s) = start {
            writeln!(out, "{} {} {}", tag, s, 0x10ffff).unwrap();
        }
    };
    emit_ranges("M", &|c| grex::verif_hooks::is_mark_or_other(c), &mut out);
    emit_ranges("W", &|c| c.is_whitespace(), &mut out);
    for v in 0..=0x10ffffu32 {
        if let Some(c) = char::from_u32(v) {
            let low: Vec<u32> = c.to_lowercase().map(|x| x as u32).collect();
            if low != vec![v] {
                writeln!(out, "L {} {}", v, low.iter().map(|x| x.to_string()).collect::<Vec<_>>().join(" ")).unwrap();
            }
        }
    }
    std::fs::write(path, out).expect("write tables");
}

fn arg_after(args: &[String], name: &str) -> Option<String> {
    args.iter().position(|a| a == name).and_then(|i| args.get(i + 1)).cloned()
}

fn load_known(path: &str) -> Vec<check::KnownFinding> {
    let Ok(text) = std::fs::read_to_string(path) else { return vec![] };
    let j = minijson::parse(&text).expect("known_findings.json does not parse");
    j.get("findings")
        .map(|f| {
            f.arr()
                .iter()
                .map(|e| check::KnownFinding {
                    id: e.get("id").and_then(|x| x.str()).unwrap_or("").to_string(),
                    properties: e.get("properties").map(|p| p.arr().iter().filter_map(|x| x.str().map(|s| s.to_string())).collect()).unwrap_or_default(),
                    guard: e.get("guard").and_then(|x| x.str()).unwrap_or("").to_string(),
                    what: e.get("what").and_then(|x| x.str()).unwrap_or("").to_string(),
                })
                .collect()
        })
        .unwrap_or_default()
}

fn make_ctx(args: &[String], prop: &str) -> check::Ctx {
    let verif = arg_after(args, "--verif").unwrap_or("/verif".into());
    let tier = if arg_after(args, "--tier").as_deref() == Some("thorough") { check::Tier::Thorough } else { check::Tier::Quick };
    let seed = arg_after(args, "--seed").and_then(|s| s.parse().ok()).unwrap_or(20260930);
    let lean_broken = arg_after(args, "--lean-broken").and_then(|p| std::fs::read_to_string(p).ok());
    check::Ctx {
        prop: prop.to_string(),
        tier,
        seed,
        model: model::Model { driver: arg_after(args, "--driver"), procs: 16 },
        classes: oracle::Classes::new(),
        known: load_known(&format!("{}/known_findings.json", verif)),
        threads: 16,
        verif_dir: verif,
        lean_broken,
        obligations: arg_after(args, "--obligations").and_then(|s| s.parse().ok()).unwrap_or(0),
        discharged: arg_after(args, "--discharged").and_then(|s| s.parse().ok()).unwrap_or(0),
        checker_cmd: arg_after(args, "--checker-cmd").unwrap_or_default(),
        repo_dir: arg_after(args, "--repo").unwrap_or("/repo".into()),
    }
}

fn run_check(args: &[String]) -> i32 {
    silence_panics();
    let prop = args[2].clone();
    let ctx = make_ctx(args, &prop);
    let t0 = std::time::Instant::now();
    let mut rng = Rng(ctx.seed ^ prop.bytes().fold(0u64, |a, b| a.wrapping_mul(131).wrapping_add(b as u64)));
    let mut plan = props::plan(&ctx, &mut rng, ctx.tier);
    // minimised past failures first: inputs on which this property's check once failed (under a seeded change, or before a repair)
    let corpus: Vec<Case> = std::fs::read_to_string(format!("{}/corpus/{}.jsonl", ctx.verif_dir, prop))
        .map(|t| t.lines().filter_map(|l| minijson::parse(l).ok()).filter_map(|j| case_from_json(&j)).collect())
        .unwrap_or_default();
    if !corpus.is_empty() && !plan.cases.is_empty() {
        plan.explanation.push_str(&format!("; {} corpus cases (inputs of past failures) run first", corpus.len()));
        plan.cases.splice(0..0, corpus);
    }
    // The source differs from the tree this machinery was last verified against: look harder where the change is.
    // (a) code points and characters named in the changed lines become atoms of extra cases under the property's
    //     own settings; (b) at the quick tier a seeded sample of the thorough plan is added.
    let diff_atoms: Vec<String> = arg_after(args, "--diff-atoms")
        .and_then(|p| std::fs::read_to_string(p).ok())
        .map(|t| t.lines().filter_map(|l| u32::from_str_radix(l.trim(), 16).ok().and_then(char::from_u32)).map(|c| c.to_string()).collect())
        .unwrap_or_default();
    let mut escalation_note = String::new();
    if !diff_atoms.is_empty() || args.iter().any(|a| a == "--source-changed") {
        let mut rng_d = Rng(ctx.seed ^ 0x64696666);
        let mut cfgs: Vec<Cfg> = vec![];
        for c in &plan.cases {
            if !cfgs.contains(&c.cfg) {
                cfgs.push(c.cfg);
            }
            if cfgs.len() >= 400 {
                break;
            }
        }
        if cfgs.is_empty() {
            cfgs.push(Cfg::new(0));
        }
        let mut extra = vec![];
        for d in &diff_atoms {
            let shapes: Vec<Vec<String>> = vec![
                vec![d.clone()],
                vec![format!("a{}", d), "a".into()],
                vec![d.clone(), "a".into()],
                vec![format!("{}{}", d, d)],
                vec![format!("x{}{}{}y", d, d, d), format!("x{}{}y", d, d)],
                vec![format!("{}b", d), format!("{}c", d), d.clone()],
            ];
            for sh in shapes {
                for _ in 0..6 {
                    let cfg = *rng_d.pick(&cfgs);
                    extra.push(Case { tcs: sh.clone(), cfg });
                }
            }
        }
        for i in 0..diff_atoms.len() {
            for j in i + 1..diff_atoms.len().min(i + 6) {
                let cfg = *rng_d.pick(&cfgs);
                extra.push(Case { tcs: vec![diff_atoms[i].clone(), diff_atoms[j].clone()], cfg });
                let cfg = *rng_d.pick(&cfgs);
                extra.push(Case { tcs: vec![format!("{}{}", diff_atoms[i], diff_atoms[j])], cfg });
            }
        }
        let n_extra = extra.len();
        plan.cases.extend(extra);
        let mut n_deep = 0;
        if ctx.tier == check::Tier::Quick && !matches!(prop.as_str(), "C10" | "C12" | "C14" | "C17" | "C09") {
            let deep = props::plan(&ctx, &mut rng_d, check::Tier::Thorough);
            let want = (plan.cases.len() * 3).min(deep.cases.len());
            let mut idx: Vec<usize> = (0..deep.cases.len()).collect();
            for k in 0..want {
                let r = k + rng_d.below(idx.len() - k);
                idx.swap(k, r);
            }
            for &i in idx.iter().take(want) {
                plan.cases.push(deep.cases[i].clone());
            }
            n_deep = want;
        }
        escalation_note = format!("; the source differs from the last verified tree: {} case(s) built from {} code point(s) named in the changed lines and {} case(s) sampled from the thorough plan were added", n_extra, diff_atoms.len(), n_deep);
    }
    let cli_bin = arg_after(args, "--cli-bin").unwrap_or_default();
    let py_ext = arg_after(args, "--py-ext");
    let py_script = format!("{}/py/pycheck.py", ctx.verif_dir);
    let mut explanation = plan.explanation.clone();
    explanation.push_str(&escalation_note);
    if let Some(t) = arg_after(args, "--tie-note").and_then(|p| std::fs::read_to_string(p).ok()) {
        explanation.push_str("; ");
        explanation.push_str(t.trim());
    }
    let mut o = match prop.as_str() {
        "C10" => {
            explanation = "order/duplicates of the list, repeated build(), clone, setter order with build() in between, field-by-field configuration, a fresh thread and a fresh thread that first built the same test cases under other class options, 16 threads and fresh processes (fresh hash seeds) on a hash-order-sensitive family: every variant must equal a fresh builder's output; outputs compared with the Lean model".into();
            custom::run_c10(&ctx, &mut rng, ctx.tier).0
        }
        "C12" => {
            explanation = "the grex binary built from the current tree on four input channels x LF/CRLF x final newline x long/short flags against the in-process library; unusable inputs must end with a non-zero exit, one line on stderr and no panic; from_file against from".into();
            let mut o = custom::run_c12(&ctx, &mut rng, ctx.tier, &cli_bin);
            o.notes.push("process plumbing (exit status, stderr, terminal detection) is observed, not modelled".into());
            o
        }
        "C14" => {
            explanation = "the extension built from the current tree, loaded into CPython: returned pattern = library pattern with every \\u{..} rewritten (independent reference rewrite and the Lean model's), re.compile, fullmatch of every test case when no class option is on, ValueError messages".into();
            let mut o = custom::run_c14(&ctx, &mut rng, ctx.tier, py_ext.as_deref(), &py_script);
            custom::api_compare(&ctx, "py", &mut o);
            o
        }
        "C17" => {
            explanation = "the module cannot be executed here (no wasm32 target, no JS host): the tie is the translator, regenerated on every run; the generated wasm setters are compared with the generated library setters by the theorems and, executably, on 17 setters x 7 arguments x 2 configurations".into();
            let mut o = check::Outcome::default();
            o.rule = "a case is (setter, argument, start configuration) evaluated in the generated semantics; all are counted as non-trivial when the two front ends were both found in the source".into();
            custom::api_compare(&ctx, "wasm", &mut o);
            for i in 0..o.evaluations { o.nontrivial.insert(i as u64); }
            o
        }
        _ => check::run_cases(&ctx, &plan.cases, &*plan.judge, plan.stages),
    };
    if unit::UNIT_PROPS.contains(&prop.as_str()) {
        let mut rng_u = Rng(ctx.seed ^ 0x756e6974);
        let u = unit::run_unit(&ctx, &mut rng_u, ctx.tier);
        o.absorb(u);
        explanation.push_str("; unit level: random terms over the library's own union/concatenate printed by Display for RegExp, against the Lean model (result and text) and the regex-crate oracle");
    }
    o.exhaustive = plan.exhaustive;
    let judge = &plan.judge;
    let seed = ctx.seed;
    let rejudge = |c: &Case| -> Vec<judge::Fail> {
        if unit::is_unit(c) {
            return unit::rejudge(&prop, c);
        }
        match prop.as_str() {
            "C10" => custom::c10_variants(c, seed),
            "C12" | "C14" | "C17" => vec![judge::Fail::new(judge::Kind::Other, "not re-judged".into(), None)],
            _ => judge(c, &build_impl(c)),
        }
    };
    let diff_cases: Vec<Case> = o.model_diffs.iter().map(|(c, _, _)| c.clone()).collect();
    let search = || -> check::Outcome {
        // deeper, oracle-only exploration of the same property
        let mut rng2 = Rng(ctx.seed.wrapping_add(0x5eed));
        let quiet = check::Ctx { model: model::Model { driver: None, procs: 1 }, ..make_ctx(args, &prop) };
        match prop.as_str() {
            "C10" => custom::run_c10(&quiet, &mut rng2, check::Tier::Thorough).0,
            "C12" => custom::run_c12(&quiet, &mut rng2, check::Tier::Thorough, &cli_bin),
            "C14" => custom::run_c14(&quiet, &mut rng2, check::Tier::Thorough, py_ext.as_deref(), &py_script),
            "C17" => check::Outcome::default(),
            _ => {
                let deep = props::plan(&ctx, &mut rng2, check::Tier::Thorough);
                if ctx.model.available() && !diff_cases.is_empty() {
                    // the correspondence broke and the model still runs: search around the inputs on which implementation
                    // and model differ, with the model in the loop, so that a failure where they differ is recognised as new
                    let pipeline_diffs: Vec<Case> = diff_cases.iter().filter(|c| !unit::is_unit(c)).cloned().collect();
                    let cases = gen::around(&mut rng2, &pipeline_diffs, 60_000);
                    let mut out = check::run_cases(&ctx, &cases, &*deep.judge, false);
                    if unit::UNIT_PROPS.contains(&prop.as_str()) {
                        out.absorb(unit::run_unit_around(&ctx, &diff_cases));
                    }
                    // the wide, deep part of the search runs against the oracle alone (the model in the loop is slow)
                    out.absorb(check::run_cases(&quiet, &deep.cases, &*deep.judge, false));
                    out
                } else {
                    check::run_cases(&quiet, &deep.cases, &*deep.judge, false)
                }
            }
        }
    };
    if args.iter().any(|a| a == "--show-diffs") {
        for (c, a, b) in o.model_diffs.iter().take(8) {
            println!("DIFF {}\n  impl : {}\n  model: {}", c.describe(), a, b);
        }
    }
    let v = check::conclude(&ctx, &mut o, &rejudge, &search);
    for l in &v.lines {
        println!("{}", l);
    }
    let ev = arg_after(args, "--evidence").unwrap_or(format!("{}/evidence/{}.json", ctx.verif_dir, prop));
    check::write_evidence(&ctx, &o, &v, t0.elapsed().as_secs_f64(), &ev, &[], &explanation);
    println!(
        "# {} {:?}: {} evaluations, {} distinct non-trivial, {} compared with the model ({} differences), {} implementation-vs-oracle failures ({} covered by known findings), {:.1}s",
        prop,
        ctx.tier,
        o.evaluations,
        o.nontrivial.len(),
        o.model_compared,
        o.model_diffs.len(),
        o.oracle_fails.len(),
        v.known_hits.values().sum::<usize>(),
        t0.elapsed().as_secs_f64()
    );
    v.exit
}

fn case_from_json(j: &minijson::J) -> Option<Case> {
    let tcs: Vec<String> = j.get("test_cases_hex")?.arr().iter().filter_map(|x| x.str().and_then(unhex)).collect();
    Some(Case {
        tcs,
        cfg: Cfg { bits: j.get("bits")?.num()? as u32, min_rep: j.get("min_rep")?.num()? as u32, min_len: j.get("min_len")?.num()? as u32 },
    })
}

/// `gv replay <file>`: re-runs the recorded input against the current tree.
fn run_replay(args: &[String]) -> i32 {
    silence_panics();
    let path = &args[2];
    let text = std::fs::read_to_string(path).expect("replay file");
    let j = minijson::parse(&text).expect("replay file is not JSON");
    let prop = j.get("property").and_then(|x| x.str()).unwrap_or("").to_string();
    let ctx = make_ctx(args, &prop);
    println!("# replay of {} ({})", path, j.get("kind").and_then(|x| x.str()).unwrap_or("?"));
    let case = j.get("case").and_then(case_from_json).or_else(|| j.get("first_difference").and_then(|d| d.get("case")).and_then(case_from_json));
    let Some(case) = case else {
        println!("# the replay names a broken obligation, not an input: {}", j.get("broken").and_then(|x| x.str()).unwrap_or(""));
        if let Some(l) = j.get("lean").and_then(|x| x.str()) {
            println!("{}", l);
        }
        println!("# re-run the check itself to see whether the obligation checks again: ./check {}", prop);
        return 1;
    };
    println!("# input: {}", case.describe());
    if unit::is_unit(&case) {
        let ev = unit::eval_impl(unit::term_of(&case), case.cfg);
        println!("# implementation (union/concatenate, Display for RegExp): {:?}", ev);
        if ctx.model.available() {
            let req = format!("X {} {} {} {}", case.cfg.bits, case.cfg.min_rep, case.cfg.min_len, unit::term_of(&case));
            if let Ok(r) = ctx.model.run(&[req]) {
                println!("# Lean model: {}", r.first().cloned().unwrap_or_default());
            }
        }
        let fails = unit::rejudge(&prop, &case);
        if fails.is_empty() {
            println!("# the recorded input no longer fails");
            return 0;
        }
        for f in &fails {
            println!("# {:?}: {}", f.kind, f.what);
        }
        println!("VIOLATION property={} replay={}", prop, path);
        return 1;
    }
    let built = build_impl(&case);
    println!("# implementation returns: {:?}", built);
    let mut rng = Rng(ctx.seed);
    let plan = props::plan(&ctx, &mut rng, ctx.tier);
    let fails: Vec<judge::Fail> = match prop.as_str() {
        "C10" => custom::c10_variants(&case, ctx.seed),
        "C12" | "C14" | "C17" => vec![],
        _ => (plan.judge)(&case, &built),
    };
    let rejudge = |c: &Case| -> Vec<judge::Fail> { (plan.judge)(c, &build_impl(c)) };
    let mut bad = 0;
    for f in &fails {
        match check::classify(&ctx, &case, f, &rejudge) {
            Some(k) => println!("KNOWN-FINDING: property={} {} [{}]", prop, k.what, k.id),
            None => {
                bad += 1;
                println!("# {:?}: {}", f.kind, f.what);
            }
        }
    }
    if ctx.model.available() {
        let req = model::request('B', &case);
        if let Ok(r) = ctx.model.run(&[req]) {
            let imp = model::impl_response(&built);
            println!("# Lean model returns: {}", r[0].strip_prefix("O ").and_then(unhex).map(|s| format!("{:?}", s)).unwrap_or(r[0].clone()));
            if r[0] != imp {
                println!("# implementation and model differ on this input");
                bad += 1;
            }
        }
    }
    if bad > 0 {
        println!("VIOLATION property={} replay={}", prop, path);
        1
    } else {
        println!("# the recorded input no longer fails");
        0
    }
}

fn main() {
    let args: Vec<String> = std::env::args().collect();
    match args.get(1).map(|s| s.as_str()) {
        Some("probe") => probe(),
        Some("serve") => custom::serve(),
        Some("dump") => {
            // gv dump <bits> <min_rep> <min_len> <hex;hex;...>
            silence_panics();
            let tcs: Vec<String> = args[5].split(';').map(|h| unhex(h).expect("hex")).collect();
            let c = Case { tcs, cfg: Cfg { bits: args[2].parse().unwrap(), min_rep: args[3].parse().unwrap(), min_len: args[4].parse().unwrap() } };
            println!("{}", c.describe());
            for f in model::stage_response(&c).split('\t') {
                println!("{}", f);
            }
            println!("{:?}", build_impl(&c));
            if let Some(pat) = args.get(6) {
                let re = regex::Regex::new(pat).unwrap();
                for t in &c.tcs {
                    println!("{:?} on {:?}: {:?}", pat, t, re.find_iter(t).map(|m| (m.start(), m.end())).collect::<Vec<_>>());
                }
            }
        }
        Some("check") => std::process::exit(run_check(&args)),
        Some("replay") => std::process::exit(run_replay(&args)),
        Some("extract") => extract(&args[2]),
        Some("corr") => corr(&args[2], args.get(3).and_then(|s| s.parse().ok()).unwrap_or(1)),
        _ => eprintln!("usage: gv probe"),
    }
}
