// Shared helpers: PRNG, hex coding, configuration, running the implementation.

use std::panic::{catch_unwind, AssertUnwindSafe};

pub const BIT_DIGIT: u32 = 0;
pub const BIT_NON_DIGIT: u32 = 1;
pub const BIT_SPACE: u32 = 2;
pub const BIT_NON_SPACE: u32 = 3;
pub const BIT_WORD: u32 = 4;
pub const BIT_NON_WORD: u32 = 5;
pub const BIT_REP: u32 = 6;
pub const BIT_CI: u32 = 7;
pub const BIT_CAP: u32 = 8;
pub const BIT_ESC: u32 = 9;
pub const BIT_SUR: u32 = 10;
pub const BIT_VERB: u32 = 11;
pub const BIT_NO_START: u32 = 12;
pub const BIT_NO_END: u32 = 13;
pub const BIT_COLOR: u32 = 14;
pub const CLASS_MASK: u32 = 0x3f;

pub const FLAG_NAMES: [&str; 15] = [
    "digits", "non_digits", "spaces", "non_spaces", "words", "non_words", "repetitions",
    "case_insensitive", "capturing", "escape", "surrogates", "verbose", "no_start_anchor",
    "no_end_anchor", "color",
];

#[derive(Clone, Copy, Debug, PartialEq, Eq, Hash, PartialOrd, Ord)]
pub struct Cfg {
    pub bits: u32,
    pub min_rep: u32,
    pub min_len: u32,
}

impl Cfg {
    pub fn new(bits: u32) -> Self {
        Cfg { bits, min_rep: 1, min_len: 1 }
    }
    pub fn has(&self, bit: u32) -> bool {
        self.bits & (1 << bit) != 0
    }
    pub fn with(&self, bit: u32) -> Self {
        Cfg { bits: self.bits | (1 << bit), ..*self }
    }
    pub fn without(&self, bit: u32) -> Self {
        Cfg { bits: self.bits & !(1 << bit), ..*self }
    }
    pub fn describe(&self) -> String {
        let mut v: Vec<String> = (0..15)
            .filter(|i| self.has(*i))
            .map(|i| FLAG_NAMES[i as usize].to_string())
            .collect();
        if self.min_rep != 1 {
            v.push(format!("min_rep={}", self.min_rep));
        }
        if self.min_len != 1 {
            v.push(format!("min_len={}", self.min_len));
        }
        if v.is_empty() {
            "default".to_string()
        } else {
            v.join("+")
        }
    }
}

#[derive(Clone, Debug, PartialEq, Eq, Hash)]
pub struct Case {
    pub tcs: Vec<String>,
    pub cfg: Cfg,
}

impl Case {
    pub fn describe(&self) -> String {
        if self.tcs.len() == 1 && self.tcs[0].starts_with("\u{1}T") {
            return format!("unit term {} settings={}", &self.tcs[0][2..], self.cfg.describe());
        }
        format!("test_cases={:?} settings={}", self.tcs, self.cfg.describe())
    }
}

// ---------------------------------------------------------------- PRNG (SplitMix64)
#[derive(Clone)]
pub struct Rng(pub u64);
impl Rng {
    pub fn next(&mut self) -> u64 {
        self.0 = self.0.wrapping_add(0x9E3779B97F4A7C15);
        let mut z = self.0;
        z = (z ^ (z >> 30)).wrapping_mul(0xBF58476D1CE4E5B9);
        z = (z ^ (z >> 27)).wrapping_mul(0x94D049BB133111EB);
        z ^ (z >> 31)
    }
    pub fn below(&mut self, n: usize) -> usize {
        (self.next() % (n.max(1) as u64)) as usize
    }
    pub fn chance(&mut self, num: u64, den: u64) -> bool {
        self.next() % den < num
    }
    pub fn pick<'a, T>(&mut self, xs: &'a [T]) -> &'a T {
        &xs[self.below(xs.len())]
    }
}

// ---------------------------------------------------------------- hex coding
pub fn hex(s: &str) -> String {
    if s.is_empty() {
        "-".to_string()
    } else {
        s.chars().map(|c| format!("{:x}", c as u32)).collect::<Vec<_>>().join(".")
    }
}

pub fn unhex(s: &str) -> Option<String> {
    if s == "-" {
        return Some(String::new());
    }
    let mut out = String::new();
    for part in s.split('.') {
        let v = u32::from_str_radix(part, 16).ok()?;
        out.push(char::from_u32(v)?);
    }
    Some(out)
}

// ---------------------------------------------------------------- the implementation
#[derive(Clone, Debug, PartialEq, Eq)]
pub enum Built {
    Ok(String),
    Panic(String),
}

impl Built {
    pub fn ok(&self) -> Option<&str> {
        match self {
            Built::Ok(s) => Some(s),
            _ => None,
        }
    }
}

thread_local! {
    pub static QUIET: std::cell::Cell<u32> = const { std::cell::Cell::new(0) };
}

/// Panics of the implementation under test (inside `quietly`) are data; any other panic is a bug of
/// the harness and is printed.
pub fn silence_panics() {
    std::panic::set_hook(Box::new(|info| {
        if QUIET.with(|q| q.get()) == 0 {
            eprintln!("harness panic: {}", info);
        }
    }));
}

pub fn quietly<R>(f: impl FnOnce() -> R) -> std::thread::Result<R> {
    QUIET.with(|q| q.set(q.get() + 1));
    let r = catch_unwind(AssertUnwindSafe(f));
    QUIET.with(|q| q.set(q.get() - 1));
    r
}

pub fn panic_msg(e: Box<dyn std::any::Any + Send>) -> String {
    if let Some(s) = e.downcast_ref::<&str>() {
        s.to_string()
    } else if let Some(s) = e.downcast_ref::<String>() {
        s.clone()
    } else {
        "<non-string panic>".to_string()
    }
}

/// `build()` of the real library with the configuration set directly (hook), no setters involved.
pub fn build_impl(case: &Case) -> Built {
    let r = quietly(|| {
        let mut b = grex::verif_hooks::builder_with(&case.tcs, case.cfg.bits, case.cfg.min_rep, case.cfg.min_len);
        b.build()
    });
    match r {
        Ok(s) => Built::Ok(s),
        Err(e) => Built::Panic(panic_msg(e)),
    }
}

/// `build()` through the public setters only.
pub fn build_public(case: &Case) -> Built {
    let r = quietly(|| {
        let mut b = grex::RegExpBuilder::from(&case.tcs);
        apply_setters(&mut b, case.cfg);
        b.build()
    });
    match r {
        Ok(s) => Built::Ok(s),
        Err(e) => Built::Panic(panic_msg(e)),
    }
}

pub fn apply_setters(b: &mut grex::RegExpBuilder, cfg: Cfg) {
    if cfg.has(BIT_DIGIT) { b.with_conversion_of_digits(); }
    if cfg.has(BIT_NON_DIGIT) { b.with_conversion_of_non_digits(); }
    if cfg.has(BIT_SPACE) { b.with_conversion_of_whitespace(); }
    if cfg.has(BIT_NON_SPACE) { b.with_conversion_of_non_whitespace(); }
    if cfg.has(BIT_WORD) { b.with_conversion_of_words(); }
    if cfg.has(BIT_NON_WORD) { b.with_conversion_of_non_words(); }
    if cfg.has(BIT_REP) { b.with_conversion_of_repetitions(); }
    if cfg.has(BIT_CI) { b.with_case_insensitive_matching(); }
    if cfg.has(BIT_CAP) { b.with_capturing_groups(); }
    if cfg.has(BIT_ESC) { b.with_escaping_of_non_ascii_chars(cfg.has(BIT_SUR)); }
    if cfg.has(BIT_VERB) { b.with_verbose_mode(); }
    if cfg.has(BIT_NO_START) { b.without_start_anchor(); }
    if cfg.has(BIT_NO_END) { b.without_end_anchor(); }
    if cfg.has(BIT_COLOR) { b.with_syntax_highlighting(); }
    b.with_minimum_repetitions(cfg.min_rep);
    b.with_minimum_substring_length(cfg.min_len);
}

/// Runs `f` over `items` on `threads` worker threads, keeping order.
pub fn par_map<T: Sync, R: Send, F: Fn(&T) -> R + Sync>(items: &[T], threads: usize, f: F) -> Vec<R> {
    if items.is_empty() {
        return vec![];
    }
    let threads = threads.max(1).min(items.len());
    let chunk = (items.len() + threads - 1) / threads;
    let mut out: Vec<Vec<R>> = Vec::new();
    std::thread::scope(|s| {
        let handles: Vec<_> = items
            .chunks(chunk)
            .map(|c| {
                let f = &f;
                s.spawn(move || c.iter().map(|x| f(x)).collect::<Vec<R>>())
            })
            .collect();
        for h in handles {
            out.push(h.join().expect("worker thread"));
        }
    });
    out.into_iter().flatten().collect()
}

pub fn json_str(s: &str) -> String {
    let mut o = String::from("\"");
    for c in s.chars() {
        match c {
            '"' => o.push_str("\\\""),
            '\\' => o.push_str("\\\\"),
            '\n' => o.push_str("\\n"),
            '\r' => o.push_str("\\r"),
            '\t' => o.push_str("\\t"),
            c if (c as u32) < 0x20 || c == '\u{7f}' => o.push_str(&format!("\\u{:04x}", c as u32)),
            c if (c as u32) > 0xffff => {
                let mut buf = [0u16; 2];
                for u in c.encode_utf16(&mut buf) {
                    o.push_str(&format!("\\u{:04x}", u));
                }
            }
            c if (c as u32) > 0x7e => o.push_str(&format!("\\u{:04x}", c as u32)),
            c => o.push(c),
        }
    }
    o.push('"');
    o
}
