// A very small JSON reader (objects, arrays, strings, numbers, true/false/null).

#[derive(Clone, Debug, PartialEq)]
pub enum J {
    Null,
    Bool(bool),
    Num(f64),
    Str(String),
    Arr(Vec<J>),
    Obj(Vec<(String, J)>),
}

impl J {
    pub fn get(&self, k: &str) -> Option<&J> {
        if let J::Obj(v) = self {
            v.iter().find(|(a, _)| a == k).map(|(_, b)| b)
        } else {
            None
        }
    }
    pub fn str(&self) -> Option<&str> {
        if let J::Str(s) = self { Some(s) } else { None }
    }
    pub fn arr(&self) -> &[J] {
        if let J::Arr(v) = self { v } else { &[] }
    }
    pub fn num(&self) -> Option<f64> {
        if let J::Num(n) = self { Some(*n) } else { None }
    }
}

pub fn parse(s: &str) -> Result<J, String> {
    let c: Vec<char> = s.chars().collect();
    let mut i = 0;
    let v = value(&c, &mut i)?;
    ws(&c, &mut i);
    if i != c.len() {
        return Err(format!("trailing data at {}", i));
    }
    Ok(v)
}

fn ws(c: &[char], i: &mut usize) {
    while *i < c.len() && c[*i].is_whitespace() {
        *i += 1;
    }
}

fn value(c: &[char], i: &mut usize) -> Result<J, String> {
    ws(c, i);
    if *i >= c.len() {
        return Err("unexpected end".into());
    }
    match c[*i] {
        '{' => {
            *i += 1;
            let mut v = vec![];
            loop {
                ws(c, i);
                if *i < c.len() && c[*i] == '}' {
                    *i += 1;
                    return Ok(J::Obj(v));
                }
                let k = match value(c, i)? {
                    J::Str(s) => s,
                    _ => return Err("object key must be a string".into()),
                };
                ws(c, i);
                if *i >= c.len() || c[*i] != ':' {
                    return Err("expected ':'".into());
                }
                *i += 1;
                let val = value(c, i)?;
                v.push((k, val));
                ws(c, i);
                if *i < c.len() && c[*i] == ',' {
                    *i += 1;
                }
            }
        }
        '[' => {
            *i += 1;
            let mut v = vec![];
            loop {
                ws(c, i);
                if *i < c.len() && c[*i] == ']' {
                    *i += 1;
                    return Ok(J::Arr(v));
                }
                v.push(value(c, i)?);
                ws(c, i);
                if *i < c.len() && c[*i] == ',' {
                    *i += 1;
                }
            }
        }
        '"' => {
            *i += 1;
            let mut out = String::new();
            let mut pending_hi: Option<u32> = None;
            while *i < c.len() && c[*i] != '"' {
                if c[*i] == '\\' {
                    *i += 1;
                    match c.get(*i) {
                        Some('n') => out.push('\n'),
                        Some('r') => out.push('\r'),
                        Some('t') => out.push('\t'),
                        Some('b') => out.push('\u{8}'),
                        Some('f') => out.push('\u{c}'),
                        Some('u') => {
                            let h: String = c[*i + 1..*i + 5].iter().collect();
                            let v = u32::from_str_radix(&h, 16).map_err(|e| e.to_string())?;
                            *i += 4;
                            if (0xd800..0xdc00).contains(&v) {
                                pending_hi = Some(v);
                            } else if (0xdc00..0xe000).contains(&v) {
                                if let Some(hi) = pending_hi.take() {
                                    out.push(char::from_u32(0x10000 + ((hi - 0xd800) << 10) + (v - 0xdc00)).unwrap_or('\u{fffd}'));
                                }
                            } else {
                                out.push(char::from_u32(v).unwrap_or('\u{fffd}'));
                            }
                        }
                        Some(x) => out.push(*x),
                        None => return Err("bad escape".into()),
                    }
                } else {
                    out.push(c[*i]);
                }
                *i += 1;
            }
            *i += 1;
            Ok(J::Str(out))
        }
        't' => {
            *i += 4;
            Ok(J::Bool(true))
        }
        'f' => {
            *i += 5;
            Ok(J::Bool(false))
        }
        'n' => {
            *i += 4;
            Ok(J::Null)
        }
        _ => {
            let st = *i;
            while *i < c.len() && (c[*i].is_ascii_digit() || "+-.eE".contains(c[*i])) {
                *i += 1;
            }
            let t: String = c[st..*i].iter().collect();
            t.parse::<f64>().map(J::Num).map_err(|e| format!("number {:?}: {}", t, e))
        }
    }
}
